use std::time::Duration;
use vlab::engine::report::{self, Check, Tier};
use vlab::qcheck::{self, Plan};

fn plans(tier: Tier) -> Vec<Plan> {
    let traced = |offs: &[u16], legacy: bool| {
        let mut v = qcheck::all_flag_cfgs(offs, true, legacy);
        for c in v.iter_mut() {
            c.trace = true;
        }
        // access_platform does not change the store pattern; keep both values for one layout only.
        v.retain(|c| !c.ap || (!c.indirect && !c.event_idx));
        v
    };
    match tier {
        Tier::Quick => vec![
            Plan { n: 1, depth: 5, cfgs: traced(&[0, 65534], true) },
            // (with "the queue is dropped while the device still has it" as a final operation)
            Plan { n: 2, depth: 4, cfgs: traced(&[0, 65534], true).into_iter().map(|mut c| { c.drop_op = true; c }).collect() },
            Plan { n: 4, depth: 3, cfgs: traced(&[0], false) },
            // Deeper histories over the reduced shape set (recycled, non-sequential free lists).
            Plan { n: 4, depth: 5, cfgs: traced(&[0], false).into_iter().filter(|c| !c.ap).map(|mut c| { c.reduced = true; c.notify_ops = false; c }).collect() },
            // From non-initial states (free list in descending order after one fill-and-drain).
            Plan { n: 4, depth: 3, cfgs: traced(&[0], false).into_iter().filter(|c| !c.ap).map(|mut c| { c.preroll = 1; c.notify_ops = false; c }).collect() },
            Plan { n: 2, depth: 3, cfgs: traced(&[65533], true).into_iter().filter(|c| !c.ap).map(|mut c| { c.preroll = 1; c.notify_ops = false; c }).collect() },
            // With the blocking helper in the alphabet (untraced: the device looks at the entry
            // the helper published when it is notified, while the driver waits, or afterwards):
            // whatever the helper returns, its entry stays completely written until it is used.
            Plan { n: 4, depth: 4, cfgs: qcheck::all_flag_cfgs(&[0], false, false).into_iter().filter(|c| !c.ap).map(|mut c| { c.reduced = true; c.wait_pop = true; c }).collect() },
        ],
        Tier::Thorough => vec![
            Plan { n: 1, depth: 9, cfgs: traced(&[0, 65535, 65533], true) },
            Plan { n: 2, depth: 7, cfgs: traced(&[0, 65535, 65533], true).into_iter().map(|mut c| { c.drop_op = true; c }).collect() },
            Plan { n: 4, depth: 5, cfgs: traced(&[0, 65534], true) },
            Plan { n: 8, depth: 4, cfgs: traced(&[0], false) },
            Plan { n: 4, depth: 5, cfgs: traced(&[0, 65533], true).into_iter().filter(|c| !c.ap).flat_map(|c| [1u8, 2].map(|p| { let mut c = c; c.preroll = p; c.notify_ops = false; c })).collect() },
            Plan { n: 8, depth: 3, cfgs: traced(&[0], false).into_iter().filter(|c| !c.ap).map(|mut c| { c.preroll = 1; c.notify_ops = false; c }).collect() },
            Plan { n: 4, depth: 6, cfgs: qcheck::all_flag_cfgs(&[0, 65533], false, true).into_iter().filter(|c| !c.ap).map(|mut c| { c.reduced = true; c.wait_pop = true; c }).collect() },
        ],
    }
}

fn main() {
    let args = report::parse_args();
    if let Some(p) = &args.replay {
        let doc = report::load_replay(p).unwrap_or_else(|e| {
            eprintln!("{}", e);
            std::process::exit(2)
        });
        std::process::exit(qcheck::replay(&doc));
    }
    let mut c = Check::new("C02", args.tier, "model_checking");
    c.rule = "BFS over submission/completion/poll/set_dev_notify histories of the real VirtQueue (as C01) with the store tracer armed on the checked step: the pages holding the descriptor table and available ring are protected, every instruction of the compiled driver code that touches them is single-stepped and the region is snapshotted after it; the reference device re-validates everything below the available index visible in each snapshot. A state is distinct by the hash of its complete concrete snapshot; observation instants = accesses logged".into();
    c.assumptions = qcheck::standard_assumptions();
    c.assumptions.push("observation granularity is one machine instruction of the compiled code on x86-64 (TSO): a reordering that keeps machine-code store order but lacks a barrier on a weakly ordered CPU is not visible".into());
    let budget = if args.tier == Tier::Quick { Duration::from_secs(45) } else { Duration::from_secs(2400) };
    qcheck::run_plans(&mut c, &plans(args.tier), budget);
    c.finish();
}
