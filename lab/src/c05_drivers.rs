//! C05 (e): the notification discipline of every driver, queue by queue.
//!
//! The device is notify-only on the queues where it wants notifications and polls the queues on
//! which it suppressed them; which queues are suppressed is an explored choice (every subset), with
//! and without event index. After every driver operation each queue is examined: buffers the
//! driver made available on a queue whose notifications are *not* suppressed must have been
//! announced (otherwise the device never looks at them: a lost wake-up), and without event index
//! a queue whose suppression flag is set must not be notified.

use crate::cosim::{self, CoDevice, CoRc};
use crate::drivers::{construct, AnyDriver, DWorld, Kind, TKind, TransportVisitor, F_EVENT_IDX, F_VERSION_1};
use crate::engine::chooser::{choose, obs, report, tag};
use crate::engine::Violation;
use crate::hal;
use crate::mmio;
use virtio_drivers::transport::Transport;

thread_local! {
    /// false: the notification oracles of C05; true: the same scripts judged by the platform ledger
    /// (C04: every share is matched by exactly one unshare with the same range, direction and
    /// device address, also when a driver hands buffers back to its queue in another order).
    static LEDGER_MODE: std::cell::Cell<bool> = const { std::cell::Cell::new(false) };
}

fn viol(kind: &str, d: String) {
    if LEDGER_MODE.with(|m| m.get()) {
        return;
    }
    report(Violation::new("C05", kind, d));
}

fn ledger_check(kind: Kind, op: &str) {
    if !LEDGER_MODE.with(|m| m.get()) {
        return;
    }
    for (k, d) in hal::with(|h| std::mem::take(&mut h.faults)) {
        if k.starts_with("unshare") || k == "share-both" {
            report(Violation::new("C04", format!("driver:{}", k), format!("{} driver, {}: {}", kind.name(), op, d)));
        }
    }
}

struct V {
    mask: usize,
    event_idx: bool,
}

fn check(co: &CoRc, kind: Kind, queues: &[(u16, u32)], sup: &[u16], event_idx: bool, notified_before: &mut Vec<u32>, op: &str) {
    let notified: Vec<u32> = co.borrow().dev.borrow().notified.clone();
    for (q, _) in queues {
        let pending = co.borrow_mut().unfetched(*q);
        let suppressed = sup.contains(q);
        let told = notified.get(*q as usize).copied().unwrap_or(0) - notified_before.get(*q as usize).copied().unwrap_or(0);
        if pending > 0 && !suppressed {
            viol(
                "lost-wakeup",
                format!("{} driver, after {}: {} buffer(s) made available on queue {} which the device has not been notified of although it did not suppress notifications on that queue (event index {}; suppressed queues {:?}); a device that serves on notification never sees them", kind.name(), op, pending, q, event_idx, sup),
            );
        }
        if suppressed && !event_idx && told > 0 {
            viol("notify-despite-suppression-flag", format!("{} driver, {}: queue {} was notified {} time(s) although the device had set VIRTQ_USED_F_NO_NOTIFY on it", kind.name(), op, q, told));
        }
        obs(((*q as u64) << 32) | ((pending as u64) << 8) | told as u64);
    }
    *notified_before = notified;
}

impl TransportVisitor for V {
    type Out = ();
    fn visit<T: Transport + 'static>(self, t: T, w: &DWorld) {
        let kind = w.kind;
        let queues = kind.driver_queues();
        let sup: Vec<u16> = queues.iter().enumerate().filter(|(i, _)| self.mask & (1 << i) != 0).map(|(_, q)| q.0).collect();
        let co = CoDevice::new(w.dev.clone(), cosim::honest_responder(kind));
        co.borrow_mut().poll_on_spin = false;
        co.borrow_mut().spin_horizon = 12;
        // (The device is not live before DRIVER_OK: notifications sent earlier are lost on it.)
        co.borrow_mut().ignore_early_notifications = true;
        cosim::install(&co);
        // Script for a blocking receive: 1 = at the next busy-wait iteration the device sets
        // DEVICE_NEEDS_RESET in its status, 2 = at the next one it delivers a frame all the same.
        let wait_state: std::rc::Rc<std::cell::Cell<u8>> = std::rc::Rc::new(std::cell::Cell::new(0));
        {
            // The device polls exactly the queues on which it suppressed notifications.
            let c2 = co.clone();
            let ws = wait_state.clone();
            mmio::set_spin_handler(Some(Box::new(move |site| {
                let mut c = c2.borrow_mut();
                c.spins += 1;
                match ws.get() {
                    1 => {
                        c.dev.borrow_mut().status |= 0x40;
                        ws.set(2);
                    }
                    2 => {
                        let mut f = vec![0u8; 12];
                        f.extend([9u8; 20]);
                        if c.held_count(0) > 0 {
                            c.complete_held(0, 0, &f, f.len() as u32);
                        }
                        ws.set(0);
                    }
                    // 4 = a slow device: the frame arrives after 1100 busy-wait iterations.
                    4 if c.spins >= 1100 => {
                        let mut f = vec![0u8; 12];
                        f.extend([8u8; 20]);
                        if c.held_count(0) > 0 {
                            c.complete_held(0, 0, &f, f.len() as u32);
                        }
                        ws.set(0);
                    }
                    _ => {}
                }
                for q in c.suppressed.clone() {
                    c.service(q);
                }
                if c.spins > c.spin_horizon {
                    if c.livelock.is_none() {
                        c.livelock = Some(format!("busy-wait site {} exceeded {} iterations", site, c.spin_horizon));
                    }
                    panic!("LAB-LIVELOCK: busy-wait site {} exceeded the horizon", site);
                }
            })));
        }
        let mut d = match crate::util::catch(|| construct(kind, t)) {
            Ok(Ok(d)) => d,
            other => {
                viol("construction", format!("{} driver: {:?}", kind.name(), other.map(|r| r.map(|_| ()))));
                cosim::uninstall();
                return;
            }
        };
        let mut nb: Vec<u32> = vec![0; queues.len().max(4)];
        // Construction happens with notifications wanted everywhere.
        check(&co, kind, &queues, &[], self.event_idx, &mut nb, "construction");
        // From now on the chosen queues are suppressed (and polled by the device).
        co.borrow_mut().suppressed = sup.clone();
        co.borrow_mut().service_all();
        let ev = self.event_idx;
        macro_rules! op {
            ($name:expr, $e:expr) => {{
                co.borrow_mut().spins = 0;
                let r = crate::util::catch(|| $e);
                if r.is_err() {
                    tag("op-panicked");
                }
                co.borrow_mut().livelock = None;
                check(&co, kind, &queues, &sup, ev, &mut nb, $name);
                ledger_check(kind, $name);
                // The device polls the suppressed queues between operations as well.
                for q in sup.iter() {
                    co.borrow_mut().service(*q);
                }
                r.ok()
            }};
        }
        // The device fills the oldest posted buffer of a receive-type queue.
        let fill = |q: u16, data: &[u8]| {
            let mut c = co.borrow_mut();
            if c.held.get(&q).map(|h| !h.is_empty()).unwrap_or(false) {
                c.complete_held(q, 0, data, data.len() as u32);
            }
        };
        let mut frame = vec![0u8; 12];
        frame.extend([7u8; 20]);
        // Ranges shared when the driver is idle (its permanently posted receive buffers).
        let idle_shares = hal::with(|h| h.live_share_count());
        let mut runt_after = false;
        match &mut d {
            AnyDriver::Blk(b) => {
                let mut buf = vec![0u8; 512];
                op!("read_blocks", b.read_blocks(0, &mut buf));
                op!("write_blocks", b.write_blocks(1, &buf));
                op!("flush", b.flush());
                let mut req = virtio_drivers::device::blk::BlkReq::default();
                let mut resp = virtio_drivers::device::blk::BlkResp::default();
                let tok = op!("read_blocks_nb", unsafe { b.read_blocks_nb(2, &mut req, &mut buf, &mut resp) });
                if let Some(Ok(tok)) = tok {
                    op!("complete_read_blocks", unsafe { b.complete_read_blocks(tok, &req, &mut buf, &mut resp) });
                }
                op!("read_blocks#2", b.read_blocks(3, &mut buf));
                // Requests that run past the last sector of the (8-sector) device, blocking and
                // non-blocking: whatever the driver and the device make of them, what was shared
                // is what is unshared.
                let mut two = vec![0u8; 1024];
                op!("read_blocks(across the end)", b.read_blocks(7, &mut two));
                op!("write_blocks(across the end)", b.write_blocks(7, &two));
                let tok = op!("read_blocks_nb(across the end)", unsafe { b.read_blocks_nb(7, &mut req, &mut two, &mut resp) });
                if let Some(Ok(tok)) = tok {
                    op!("complete_read_blocks(across the end)", unsafe { b.complete_read_blocks(tok, &req, &mut two, &mut resp) });
                }
                let tok = op!("write_blocks_nb(across the end)", unsafe { b.write_blocks_nb(7, &mut req, &two, &mut resp) });
                if let Some(Ok(tok)) = tok {
                    op!("complete_write_blocks(across the end)", unsafe { b.complete_write_blocks(tok, &req, &two, &mut resp) });
                }
            }
            AnyDriver::Console(c) => {
                op!("send", c.send(b'x'));
                fill(0, b"hi");
                op!("recv(pop)", c.recv(true));
                op!("recv(pop)#2", c.recv(true));
                op!("recv(pop)#3", c.recv(true));
                fill(0, b"yo");
                op!("recv(peek)", c.recv(false));
                op!("send_bytes", c.send_bytes(b"abc"));
            }
            AnyDriver::Gpu(g) => {
                op!("resolution", g.resolution());
                op!("setup_framebuffer", g.setup_framebuffer().map(|f| f.len()));
                op!("flush", g.flush());
                op!("setup_cursor", g.setup_cursor(&vec![0u8; 64 * 64 * 4], 1, 2, 3, 4));
                op!("move_cursor", g.move_cursor(5, 6));
                op!("move_cursor#2", g.move_cursor(7, 8));
                op!("move_cursor#3", g.move_cursor(9, 10));
                op!("move_cursor#4", g.move_cursor(11, 12));
                op!("flush#2", g.flush());
            }
            AnyDriver::Input(i) => {
                fill(0, &[1, 0, 2, 0, 3, 0, 0, 0]);
                op!("pop_pending_event", i.pop_pending_event());
                fill(0, &[1, 0, 2, 0, 4, 0, 0, 0]);
                fill(0, &[1, 0, 2, 0, 5, 0, 0, 0]);
                op!("pop_pending_event#2", i.pop_pending_event());
                op!("pop_pending_event#3", i.pop_pending_event());
                op!("pop_pending_event#4", i.pop_pending_event());
            }
            AnyDriver::NetRaw(n) => {
                op!("send", n.send(&[1, 2, 3]));
                let mut b1 = vec![0u8; 2048];
                let mut b2 = vec![0u8; 2048];
                let t1 = op!("receive_begin", unsafe { n.receive_begin(&mut b1) });
                let _t2 = op!("receive_begin#2", unsafe { n.receive_begin(&mut b2) });
                op!("send#2", n.send(&[4, 5]));
                fill(0, &frame);
                op!("poll_receive", n.poll_receive());
                if let Some(Ok(t1)) = t1 {
                    op!("receive_complete", unsafe { n.receive_complete(t1, &mut b1) });
                    op!("receive_begin#3", unsafe { n.receive_begin(&mut b1) });
                }
                let tx = vec![0u8; 40];
                let tt = op!("transmit_begin", unsafe { n.transmit_begin(&tx) });
                if let Some(Ok(tt)) = tt {
                    op!("transmit_complete", unsafe { n.transmit_complete(tt, &tx) });
                }
                // A blocking receive during which the device reports DEVICE_NEEDS_RESET before it
                // delivers the frame: however the call ends, the caller's buffer must not stay
                // shared with the device once the call has returned.
                {
                    while co.borrow_mut().held_count(0) > 0 {
                        // (Buffers posted earlier are used up first.)
                        co.borrow_mut().complete_held(0, 0, &frame, frame.len() as u32);
                        if let Some(t) = n.poll_receive() {
                            let _ = unsafe { n.receive_complete(t, if t == 0 { &mut b1 } else { &mut b2 }) };
                        }
                    }
                    let mut b3 = vec![0u8; 2048];
                    wait_state.set(1);
                    let r = op!("receive_wait(device needs reset)", n.receive_wait(&mut b3));
                    wait_state.set(0);
                    co.borrow().dev.borrow_mut().status &= !0x40;
                    let (lo, hi) = (b3.as_ptr() as usize, b3.as_ptr() as usize + b3.len());
                    let still = hal::with(|h| h.live_shares_in(lo, hi).len());
                    if still != 0 && LEDGER_MODE.with(|m| m.get()) {
                        report(Violation::new("C04", "driver:returned-while-shared", format!("net driver: receive_wait returned {:?} with its buffer still shared with the device ({} live ranges)", r.map(|x| x.map(|_| ())), still)));
                    }
                }
                // A blocking receive served by a slow device (more than a thousand polls) which has
                // suppressed notifications on the receive queue: waiting longer is no reason to
                // notify it.
                if sup.contains(&0) {
                    let mut b4 = vec![0u8; 2048];
                    co.borrow_mut().spin_horizon = 1300;
                    wait_state.set(4);
                    op!("receive_wait(slow device, notifications suppressed)", n.receive_wait(&mut b4));
                    wait_state.set(0);
                    co.borrow_mut().spin_horizon = 12;
                }
                // Two transmissions in flight: the second is submitted before the completion of
                // the first (which the device has already used) has been consumed.
                let (tx1, tx2) = (vec![1u8; 40], vec![2u8; 40]);
                let ta = op!("transmit_begin(pipelined #1)", unsafe { n.transmit_begin(&tx1) });
                let tb = op!("transmit_begin(pipelined #2)", unsafe { n.transmit_begin(&tx2) });
                if let Some(Ok(ta)) = ta {
                    op!("transmit_complete(pipelined #1)", unsafe { n.transmit_complete(ta, &tx1) });
                }
                if let Some(Ok(tb)) = tb {
                    op!("transmit_complete(pipelined #2)", unsafe { n.transmit_complete(tb, &tx2) });
                }
                // Nothing may still refer to the local buffers when they go away.
                co.borrow_mut().suppressed.clear();
            }
            AnyDriver::NetBuf(n) => {
                fill(0, &frame);
                let mut rx = None;
                op!("receive", n.receive().map(|r| rx = Some(r)));
                if let Some(r) = rx.take() {
                    op!("recycle_rx_buffer", n.recycle_rx_buffer(r));
                }
                let tx = n.new_tx_buffer(10);
                op!("send", n.send(tx));
                // A burst: two buffers held at once, handed back oldest first, then used again.
                fill(0, &frame);
                fill(0, &frame);
                let mut held = vec![];
                op!("receive#2", n.receive().map(|r| held.push(r)));
                op!("receive#3", n.receive().map(|r| held.push(r)));
                while !held.is_empty() {
                    let r = held.remove(0);
                    op!("recycle_rx_buffer(oldest first)", n.recycle_rx_buffer(r));
                }
                for _ in 0..4 {
                    fill(0, &frame);
                }
                for _ in 0..4 {
                    op!("receive(after recycling)", n.receive().map(|r| held.push(r)));
                }
                while let Some(r) = held.pop() {
                    op!("recycle_rx_buffer(newest first)", n.recycle_rx_buffer(r));
                }
                runt_after = true;
            }
            AnyDriver::Rng(r) => {
                let mut dst = [0u8; 16];
                op!("request_entropy", r.request_entropy(&mut dst));
                op!("request_entropy#2", r.request_entropy(&mut dst));
            }
            AnyDriver::Rtc(r) => {
                op!("num_clocks", r.num_clocks());
                op!("read", r.read(0));
            }
            AnyDriver::Socket(s) => {
                use virtio_drivers::device::socket::{ConnectionInfo, VsockAddr};
                let mut ci = ConnectionInfo::new(VsockAddr { cid: 2, port: 80 }, 1234);
                op!("connect", s.connect(&ci));
                let resp = crate::vsock_ref::Hdr { src_cid: 2, dst_cid: 0x0000_0001_0000_0003, src_port: 80, dst_port: 1234, len: 0, typ: 1, op: crate::vsock_ref::OP_RESPONSE, flags: 0, buf_alloc: 64, fwd_cnt: 0 }.encode();
                fill(0, &resp);
                if let Some(Ok(Some(e))) = op!("poll", s.poll(|e, _| Ok(Some(e)))) {
                    ci.update_for_event(&e);
                }
                op!("send", s.send(&[1, 2, 3], &mut ci));
                fill(0, &resp);
                fill(0, &resp);
                op!("poll#2", s.poll(|e, _| Ok(Some(e))));
                op!("poll#3", s.poll(|e, _| Ok(Some(e))));
                op!("credit_update", s.credit_update(&ci));
                // Packets the caller's handler rejects, and packets too short to decode: the
                // buffer goes back to the device, which must be told like for any other.
                fill(0, &resp);
                op!("poll(handler error)", s.poll(|_, _| Err(virtio_drivers::Error::InvalidParam)));
                fill(0, &resp[..7]);
                op!("poll(undecodable)", s.poll(|e, _| Ok(Some(e))));
                fill(0, &resp);
                fill(0, &resp);
                op!("poll(handler error)#2", s.poll(|_, _| Err(virtio_drivers::Error::InvalidParam)));
                op!("poll#4", s.poll(|e, _| Ok(Some(e))));
            }
            AnyDriver::Sound(s) => {
                use virtio_drivers::device::sound::{PcmFeatures, PcmFormat, PcmRate};
                op!("output_streams", s.output_streams());
                op!("pcm_set_params", s.pcm_set_params(0, 8, 4, PcmFeatures::empty(), 1, PcmFormat::U8, PcmRate::Rate8000));
                op!("pcm_prepare", s.pcm_prepare(0));
                // The device takes its time with the first transfer: the first pcm_xfer_ok comes
                // before it has used the buffers, the second one after.
                co.borrow_mut().responder = Box::new(move |q, chain, req| {
                    if q == 2 {
                        cosim::Action::Hold
                    } else {
                        let data = cosim::honest_response(kind, q, req, chain.writable_len());
                        let n = data.len() as u32;
                        cosim::Action::Complete(data, n)
                    }
                });
                let tok = op!("pcm_xfer_nb", s.pcm_xfer_nb(0, &[1, 2, 3, 4]));
                if let Some(Ok(tok)) = tok {
                    let early = op!("pcm_xfer_ok(before the device used it)", s.pcm_xfer_ok(tok));
                    co.borrow_mut().responder = cosim::honest_responder(kind);
                    let mut done = [0u8; 8];
                    done[0..4].copy_from_slice(&0x8000u32.to_le_bytes());
                    co.borrow_mut().complete_held(2, 0, &done, 8);
                    if !matches!(early, Some(Ok(()))) {
                        let r = op!("pcm_xfer_ok(second attempt)", s.pcm_xfer_ok(tok));
                        if !matches!(r, Some(Ok(()))) && LEDGER_MODE.with(|m| m.get()) {
                            report(Violation::new("C04", "driver:completion-not-consumable", format!("sound driver: the transfer whose first pcm_xfer_ok came before the device had used its buffers can no longer be completed: {:?}", r)));
                        }
                    }
                }
                co.borrow_mut().responder = cosim::honest_responder(kind);
                op!("pcm_xfer", s.pcm_xfer(0, &[1, 2, 3, 4, 5, 6, 7, 8, 9]));
                // A transfer of several periods of which the device fails the first and accepts
                // the others: whatever the call returns, nothing it shared stays shared.
                {
                    let first = std::rc::Rc::new(std::cell::Cell::new(true));
                    let f2 = first.clone();
                    co.borrow_mut().responder = Box::new(move |q, chain, req| {
                        let mut data = cosim::honest_response(kind, q, req, chain.writable_len());
                        if q == 2 && f2.replace(false) && data.len() >= 4 {
                            data[0..4].copy_from_slice(&0x8003u32.to_le_bytes());
                        }
                        let n = data.len() as u32;
                        cosim::Action::Complete(data, n)
                    });
                    op!("pcm_xfer(first period fails)", s.pcm_xfer(0, &[1, 2, 3, 4, 5, 6, 7, 8, 9, 10, 11, 12, 13]));
                    co.borrow_mut().responder = cosim::honest_responder(kind);
                    op!("pcm_xfer(after a failed one)", s.pcm_xfer(0, &[1, 2, 3, 4, 5]));
                }
                fill(1, &[0, 0x11, 0, 0, 1, 0, 0, 0]);
                op!("latest_notification", s.latest_notification());
                op!("pcm_stop", s.pcm_stop(0));
                // An event too short to decode: its buffer is returned to the device all the same.
                fill(1, &[0, 0x11, 0]);
                op!("latest_notification(undecodable)", s.latest_notification());
                fill(1, &[0, 0x11, 0, 0, 3, 0, 0, 0]);
                op!("latest_notification#2", s.latest_notification());
            }
            AnyDriver::P9(p) => {
                let mut resp = [0u8; 32];
                op!("request", p.request(&[7, 0, 0, 0, 100, 0, 0], &mut resp));
                op!("request#2", p.request(&[7, 0, 0, 0, 100, 0, 0], &mut resp));
            }
        }
        let mut shares_before_runt = None;
        if runt_after {
            if let AnyDriver::NetBuf(n) = &mut d {
                shares_before_runt = Some(hal::with(|h| h.live_share_count()));
                // While the caller holds a received buffer the device completes another one with
                // fewer bytes than a packet header; then the held buffer goes back. A submission
                // the driver refuses must leave nothing shared, and every later completion is
                // unshared with exactly what was shared for it.
                fill(0, &frame);
                let mut held = vec![];
                op!("receive(held)", n.receive().map(|r| held.push(r)));
                fill(0, &[1, 2, 3]);
                op!("receive(runt)", n.receive().map(|r| held.push(r)));
                while let Some(r) = held.pop() {
                    let before = hal::with(|h| h.live_share_count());
                    let res = op!("recycle_rx_buffer(after a runt)", n.recycle_rx_buffer(r));
                    let after = hal::with(|h| h.live_share_count());
                    if !matches!(res, Some(Ok(()))) && after != before && LEDGER_MODE.with(|m| m.get()) {
                        report(Violation::new("C04", "driver:refused-submission-shared", format!("net driver: recycle_rx_buffer returned {:?} but {} ranges are shared after the call and {} before it", res, after, before)));
                    }
                }
                for _ in 0..16 {
                    fill(0, &frame);
                }
                for _ in 0..16 {
                    op!("receive(after a runt)", n.receive().map(|r| held.push(r)));
                }
                while !held.is_empty() {
                    let r = held.remove(0);
                    op!("recycle_rx_buffer(after a runt, oldest first)", n.recycle_rx_buffer(r));
                }
            }
        }
        // Every request of the script has been completed and consumed: what is shared now is what
        // was shared when the driver was idle after construction.
        if LEDGER_MODE.with(|m| m.get()) {
            let now = hal::with(|h| h.live_share_count());
            let extra = 0;
            // The console script ends with received data still unread: its receive buffer is
            // legitimately not posted at that point.
            // (A net receive buffer completed with less than a header may be given up.)
            let ok = if kind == Kind::Console || shares_before_runt.is_some() { now <= idle_shares } else { now == idle_shares + extra };
            if !ok {
                report(Violation::new("C04", "driver:share-leak", format!("{} driver: {} ranges shared after every request of the script was completed and consumed, {} when the driver was idle after construction{}", kind.name(), now, idle_shares, if extra != 0 { " (+2 receive buffers left posted on purpose)" } else { "" })));
            }
        }
        // Interrupt suppression through the drivers' own switches: without event index the device
        // must read exactly the last setting in avail.flags of the queues the switch governs.
        let flags_of = |q: u16| -> Option<u16> {
            let mut c = co.borrow_mut();
            c.unfetched(q);
            c.queues.get(&q).and_then(|r| r.avail_flags().ok())
        };
        let mut irq = |what: &str, queues: &[u16], disabled: bool| {
            if ev {
                return;
            }
            for q in queues {
                let f = flags_of(*q);
                if f != Some(disabled as u16) {
                    viol("interrupt-setting", format!("{} driver: after {} the device reads avail.flags = {:?} on queue {}, expected {} (VIRTQ_AVAIL_F_NO_INTERRUPT {})", kind.name(), what, f, q, disabled as u16, if disabled { "set" } else { "clear" }));
                }
            }
        };
        match &mut d {
            AnyDriver::Blk(b) => {
                b.disable_interrupts();
                irq("disable_interrupts", &[0], true);
                let mut buf = vec![0u8; 512];
                op!("read_blocks(interrupts off)", b.read_blocks(4, &mut buf));
                irq("disable_interrupts + read_blocks", &[0], true);
                b.enable_interrupts();
                irq("enable_interrupts", &[0], false);
            }
            AnyDriver::Rng(r) => {
                r.disable_interrupts();
                irq("disable_interrupts", &[0], true);
                let mut dst = [0u8; 4];
                op!("request_entropy(interrupts off)", r.request_entropy(&mut dst));
                irq("disable_interrupts + request_entropy", &[0], true);
                r.enable_interrupts();
                irq("enable_interrupts", &[0], false);
            }
            AnyDriver::NetRaw(n) => {
                n.disable_interrupts();
                irq("disable_interrupts", &[0, 1], true);
                op!("send(interrupts off)", n.send(&[9, 9]));
                irq("disable_interrupts + send", &[0, 1], true);
                n.enable_interrupts();
                irq("enable_interrupts", &[0, 1], false);
            }
            AnyDriver::NetBuf(n) => {
                n.disable_interrupts();
                irq("disable_interrupts", &[0, 1], true);
                let tx = n.new_tx_buffer(3);
                op!("send(interrupts off)", n.send(tx));
                irq("disable_interrupts + send", &[0, 1], true);
                n.enable_interrupts();
                irq("enable_interrupts", &[0, 1], false);
            }
            AnyDriver::Sound(s) => {
                s.enable_interrupts(false);
                irq("enable_interrupts(false)", &[1], true);
                fill(1, &[0, 0x11, 0, 0, 2, 0, 0, 0]);
                op!("latest_notification(interrupts off)", s.latest_notification());
                irq("enable_interrupts(false) + latest_notification", &[1], true);
                s.enable_interrupts(true);
                irq("enable_interrupts(true)", &[1], false);
            }
            _ => {}
        }
        tag("driver-notify-script");
        let _ = crate::util::catch(|| drop(d));
        cosim::uninstall();
    }
}

/// The same scripts judged by the platform ledger (C04).
pub fn run_driver_ledger(kind: Kind, tkind: TKind) {
    LEDGER_MODE.with(|m| m.set(true));
    run_driver_notify(kind, tkind);
    // Teardown included.
    ledger_check(kind, "drop");
    LEDGER_MODE.with(|m| m.set(false));
}

/// One execution: a driver, an explored set of suppressed queues, with or without event index.
pub fn run_driver_notify(kind: Kind, tkind: TKind) {
    hal::reset();
    let event_idx = choose(2, "event index negotiated") == 1;
    // Indirect descriptors are independent of the notification mechanism; a driver that mixes the
    // two up per queue shows only when exactly one of them is negotiated.
    let indirect = choose(2, "indirect descriptors negotiated") == 1;
    let nq = kind.driver_queues().len();
    let mask = choose(1 << nq, "set of queues with notifications suppressed");
    let offered = F_VERSION_1 | if event_idx { F_EVENT_IDX } else { 0 } | if indirect { crate::drivers::F_INDIRECT } else { 0 } | kind.device_specific_supported();
    let w = DWorld::new(kind, tkind, offered, kind.default_config());
    w.with_transport(V { mask, event_idx });
    mmio::set_handler(None);
}
