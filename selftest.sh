#!/bin/bash
# ./selftest.sh [filter]: demonstrates detection.  Every property-breaking change kept under
# mutants/ (my own) and seeded/ (written by independent sub-agents) is applied to a scratch copy
# of the repository (never to /repo), the quick tier of the property's check is run against that
# copy (VLAB_REPO), and the check must exit 1 with a VIOLATION line.  Finally the unchanged copy is
# checked once per property and must exit 0.  Results: selftest_results.md.
# Work is spread over $SELFTEST_LANES (default 4) lanes, each with its own scratch worktree and
# build directory under $SELFTEST_TMP (default /tmp/vlab-selftest), all removed at the end.
set -u
cd /verif
FILTER=${1:-}
T=${SELFTEST_TMP:-/tmp/vlab-selftest}
LANES=${SELFTEST_LANES:-4}
mkdir -p $T
# The sweep builds from a copy of lab/ taken now.
rsync -a --delete --exclude target /verif/lab/ $T/lab-snap/
export VLAB_LAB_SRC=$T/lab-snap
OUT=/verif/selftest_results.md
JOBS=$T/jobs.txt
: > $JOBS
for p in mutants/*.patch; do
  n=$(basename $p .patch)
  case "$n" in *"$FILTER"*) ;; *) continue;; esac
  id=$(echo ${n%%-*} | tr c C)
  echo "mutants/$n $(realpath $p) $id 1" >> $JOBS
done
for d in seeded/C*/; do
  n=$(basename $d)
  case "$n" in *"$FILTER"*) ;; *) continue;; esac
  [ -f $d/patch.diff ] || continue
  # meta.json may name another check (selftest_check: the change breaks a neighbouring property
  # rather than the one it was written for) or carry a verdict "not detected: outside ..." (the
  # change was judged not to break the property; the check is expected to exit 0 then).
  chk=$(python3 -c "import json,sys; m=json.load(open('$d/meta.json')); print(m.get('selftest_check') or '${n%%-*}')" 2>/dev/null || echo ${n%%-*})
  exp=1; grep -q '"verdict": "not detected: outside' $d/meta.json 2>/dev/null && exp=0
  echo "seeded/$n $(realpath $d/patch.diff) $chk $exp" >> $JOBS
done
if [ -z "$FILTER" ]; then
  for i in $(seq -w 1 20); do echo "unchanged - C$i 0" >> $JOBS; done
fi
lane() { # lane number
  local L=$1 S=$T/repo-$1 k=0
  [ -d $S ] || git -C /repo worktree add -q --detach $S HEAD || exit 2
  : > $T/res-$L.txt
  while read -r name patch chk exp; do
    k=$((k+1))
    [ $(( (k-1) % LANES )) -eq $((L-1)) ] || continue
    ( cd $S && git checkout -q -- . && git clean -qfd )
    if [ "$patch" != "-" ]; then
      ( cd $S && git apply "$patch" ) || { echo "$name|$chk|patch does not apply|" >> $T/res-$L.txt; continue; }
    fi
    VLAB_REPO=$S VLAB_TARGET=$T/target-$L ./check $chk quick > $T/out-$L.txt 2>&1; rc=$?
    ( cd $S && git checkout -q -- . && git clean -qfd )
    kinds=$(grep -oE "kind=[^ ]+" $T/out-$L.txt | sort | uniq -c | sort -rn | head -3 | awk '{print $2}' | tr '\n' ' ')
    echo "$name|$chk|$rc|$kinds|$exp" >> $T/res-$L.txt
    echo "$name -> $chk rc=$rc $kinds"
  done < $JOBS
  git -C /repo worktree remove --force $S
}
for L in $(seq 1 $LANES); do lane $L & done
wait
fail=0
{
  echo "# selftest: detection of deliberate property-breaking changes (quick tier)"
  echo
  echo "repo commit: $(git -C /repo rev-parse --short HEAD); every change compiles and passes the repository's own suite (see mutants/, seeded/*/meta.json)"
  echo
  echo "| change | check | exit | violation kinds (top 3) |"
  echo "|--------|-------|------|-------------------------|"
  cat $T/res-*.txt | grep -v "^unchanged" | sort | while IFS='|' read -r name chk rc kinds exp; do [ "$exp" = 0 ] && kinds="(judged outside the property, see seeded/README.md: exit 0 expected)"; echo "| $name | $chk | $rc | $kinds |"; done
  echo
  echo "Unchanged copy (must exit 0):"
  echo
  cat $T/res-*.txt | grep "^unchanged" | sort -t'|' -k2 | while IFS='|' read -r name chk rc kinds; do echo "- $chk quick: exit $rc"; done
} > $OUT
if cat $T/res-*.txt | grep -v "^unchanged" | awk -F'|' '$3 != $5' | grep -q .; then fail=1; fi
if cat $T/res-*.txt | grep "^unchanged" | awk -F'|' '$3 != 0' | grep -q .; then fail=1; fi
rm -rf $T
git -C /repo worktree prune
rm -f /verif/selftest_results.md.tmp
exit $fail
