#!/bin/bash
# ./selftest.sh [filter]: demonstrates detection.  Every property-breaking change kept under
# mutants/ (my own) and seeded/ (written by independent sub-agents) is applied to a scratch copy
# of the repository (never to /repo), the quick tier of the property's check is run against that
# copy (VLAB_REPO), and the check must exit 1 with a VIOLATION line.  Finally the unchanged copy is
# checked once per property touched and must exit 0.  Results: selftest_results.md.
# Scratch copy and build output live under $SELFTEST_TMP (default /tmp/vlab-selftest) and are
# removed at the end.
set -u
cd /verif
FILTER=${1:-}
T=${SELFTEST_TMP:-/tmp/vlab-selftest}
S=$T/repo
mkdir -p $T
[ -d $S ] || git -C /repo worktree add -q --detach $S HEAD || exit 2
OUT=/verif/selftest_results.md
{
  echo "# selftest: detection of deliberate property-breaking changes (quick tier)"
  echo
  echo "repo commit: $(git -C /repo rev-parse --short HEAD); every change compiles and passes the repository's own suite (see mutants/, seeded/*/meta.json)"
  echo
  echo "| change | check | exit | violation kinds (top 3) |"
  echo "|--------|-------|------|-------------------------|"
} > $OUT.tmp
fail=0
run_one() { # name patch check
  local name=$1 patch=$2 chk=$3
  ( cd $S && git checkout -q -- . && git clean -qfd && git apply "$patch" ) || { echo "| $name | $chk | patch does not apply | |" >> $OUT.tmp; fail=1; return; }
  VLAB_REPO=$S VLAB_TARGET=$T/target ./check $chk quick > $T/out.txt 2>&1; rc=$?
  ( cd $S && git checkout -q -- . && git clean -qfd )
  kinds=$(grep -oE "kind=[^ ]+" $T/out.txt | sort | uniq -c | sort -rn | head -3 | awk '{print $2}' | tr '\n' ' ')
  echo "| $name | $chk | $rc | $kinds |" >> $OUT.tmp
  echo "$name -> $chk rc=$rc $kinds"
  [ $rc = 1 ] || fail=1
}
for p in mutants/*.patch; do
  n=$(basename $p .patch)
  case "$n" in *"$FILTER"*) ;; *) continue;; esac
  id=$(echo ${n%%-*} | tr c C)
  run_one "mutants/$n" "$(realpath $p)" $id
done
for d in seeded/C*/; do
  n=$(basename $d)
  case "$n" in *"$FILTER"*) ;; *) continue;; esac
  [ -f $d/patch.diff ] || continue
  run_one "seeded/$n" "$(realpath $d/patch.diff)" ${n%%-*}
done
if [ -z "$FILTER" ]; then
  echo >> $OUT.tmp
  echo "Unchanged copy (must exit 0):" >> $OUT.tmp
  echo >> $OUT.tmp
  for i in $(seq -w 1 20); do
    VLAB_REPO=$S VLAB_TARGET=$T/target ./check C$i quick > $T/out.txt 2>&1; rc=$?
    echo "- C$i quick: exit $rc" >> $OUT.tmp
    echo "clean C$i rc=$rc"
    [ $rc = 0 ] || fail=1
  done
fi
mv $OUT.tmp $OUT
git -C /repo worktree remove --force $S
rm -rf $T
exit $fail
